"""Routine-program tie (WP routine-ast): ties the composite steps of Model/Core.v (`unm` / `mar`) to the SOURCE of
unmarshals/routines.py and marshals/routines.py on every run.

`obligations(run)` does, in this order,

  1. *translate* (fail closed): both routines.py files of the tree under test are parsed with `ast`.  For each of the
     ten composite routine classes (Subscripted{Iterable,Mapping}, FixedTuple, StructuredType, Union x
     {Unmarshaller, Marshaller}) and for SubscriptedIteratorUnmarshaller
       - the base class `__init__` must store `t`, `inspection.origin(self.t)` and `context`;
       - the class's own `__init__` is evaluated SYMBOLICALLY: what ends up in which attribute, as a function of
         `inspection.args(t, evaluate=True)` and the context --
             a, b = inspection.args(t, evaluate=True); self.keys = context[a]         -> keys  := SArg 0
             self.stack = inspection.args(t, evaluate=True)                           -> stack := LArgs
             if inspection.isoptionaltype(t): self.stack = (*(a for a in self.stack if inspection.isnonetype(a)),
                                                            *(a for a in self.stack if not inspection.isnonetype(a)))
                                                -> stack := LIfOptional (LApp (LNones LArgs) (LNotNones LArgs)) LArgs
             self.ordered_routines = [self.context[x] for x in self.stack]            -> SEach <stack>
             self.factory = _factory(self.origin)  (shape of `_factory` checked)      -> CFactory
             self.fields_by_var = self._fields_by_var()    (shape of the method checked: one routine per type hint,
                                                            `context.get(hint) or context.get(resolved)`)
             self.required_keys = self._required_keys()    (shape checked: frozenset() unless a TypedDict)
             self.nullable = inspection.isoptionaltype(t)
       - the body of `__call__(self, val)` is evaluated symbolically, statement by statement, into a `prog` of
         Model/RoutineAst.v.  Locals are aliases (any names); an expression with an effect (anything but `val` and
         attribute reads) is LINEAR: it must be consumed exactly once, and no second effect may start while one is
         pending, so that the nesting of the program IS the order of evaluation of the body.  Understood:
             serdes.load(e) / serdes.itervalues(e) / serdes.iteritems(e)
             (r(v) for v in L) | [r(v) for v in L]                  -> MapEach r L        (list display: Construct CList)
             ((rk(k), rv(v)) for k, v in P)                         -> MapKV rk rv P
             {rk(k): rv(v) for k, v in P} | dict(<MapKV>)           -> Construct CDict (MapKV rk rv P)
             (r(v) for r, v in zip(RS, L)) | [...]                  -> ZipApply RS L
             (*itertools.islice(L, len(RS)),) | tuple(islice(..))   -> TakeLen RS L
             if len(x) < len(RS): raise ValueError(..)              -> x := GuardLen RS x
             {f: F[f](v) for f, v in P if f in F}, F = fields_by_var-> KwargsIn P
             if not self.required_keys <= k.keys(): ..raise TypeError -> k := RequireKeys k
             self.t(**k)                                            -> CallT k
             self.origin(G) / self.factory(G) / list(G) / [*G]      -> Construct COrigin|CFactory|CList G
             for r in RS: with contextlib.suppress(Exception): [x =] r(val); return x   + raise ValueError
                                                                    -> FirstAccepting RS Input
             if self.nullable and val is None: return val           -> IfNullableNone <rest>
         Anything else raises `Closed`: the class gets no row, the obligation fails, RoutineAstXU.v / XM.v cannot compile.
       - cross-check against the LIVE modules: the file parsed is the file the live module was loaded from (under
         $TYPELIB_REPO), each live class's `__call__` / `__init__` starts on the parsed line, and every concrete
         routine class of the live module is either translated or a known leaf routine (`LEAVES`).
     The result is written as GenRoutineProgs.v (`translated : progtable`) into the run's build dir.
  2. *diagnose*: Coq lists the classes whose translated program is not `RoutineAst.expected` (class, expected program,
     translated program) -- this is the readable message of a broken tie.
  3. *theorems*: coq/dyn/RoutineAst/RoutineAstXU.v (unmarshal side) and RoutineAstXM.v (marshal side) are compiled
     against GenRoutineProgs.v: `progs_agree_dir d translated = true` (vm_compute) and, from it, Core's steps as the
     interpretation of the programs TRANSLATED FROM THE SOURCE.  One side's break leaves the other side's theorems.
  4. Props/RoutineAst.v (table-independent) is re-checked: Print Assumptions of its theorems.

Standalone: `PYTHONPATH=$TYPELIB_REPO/src:/verif/harness /venv/bin/python harness/routasttie.py [--print]`.
"""
from __future__ import annotations

import ast
import inspect
import os
import re
import sys

import lib
from lib import coq_string

COQ_TARGETS = ["theories/Model/Core.vo", "theories/Model/CoreLate.vo", "theories/Proofs/CoreHash.vo",
               "theories/Proofs/CoreLate.vo", "theories/Model/RoutineAst.vo", "theories/Proofs/RoutineAst.vo",
               "theories/Props/RoutineAst.vo", "theories/Props/CoreHash.vo",
               # the leaf routine classes (part 3)
               "theories/Model/Serdes.vo", "theories/Model/RoutineLeafAst.vo", "theories/Proofs/RoutineLeafAst.vo",
               "theories/Props/RoutineLeafAst.vo"]

PROPS = [("Props/RoutineAst.v", [
    "RA_unm_step", "RA_mar_step",
    "RA_unm_iterable", "RA_unm_mapping", "RA_unm_tuple", "RA_unm_struct", "RA_unm_union",
    "RA_mar_iterable", "RA_mar_mapping", "RA_mar_tuple", "RA_mar_struct", "RA_mar_union",
    "RA_unm_set_late_outside", "RA_unm_mapping_late_outside", "RA_mar_mapping_late_outside", "RA_hash_order",
    "RA_prog_eqb_sound", "RA_src_prog", "RA_src_prog_dir", "RA_unm_step_src", "RA_mar_step_src"]),
    # Core's set / mapping steps hash each element as it is produced (repair of modelling difference D1); the former
    # convert-all-then-hash formulation is kept in Model/CoreLate.v and characterised against the new one
    ("Props/CoreHash.v", [
        "CH_unm_set_ok_iff", "CH_unm_map_ok_iff", "CH_mar_map_ok_iff", "CH_unm_set_eq_late", "CH_unm_map_eq_late",
        "CH_mar_map_eq_late", "CH_unm_set_outside_late", "CH_unm_map_outside_late", "CH_mar_map_outside_late",
        "CH_mapM_hashing_ok", "CH_hashing_done"])]

X_FILES = [
    ("RoutineAstXU.v", ["RAX_unm_agree", "RAX_unm_src", "RAX_unm_iterable_src", "RAX_unm_mapping_src", "RAX_unm_tuple_src",
                        "RAX_unm_struct_src", "RAX_unm_union_src", "RAX_unm_set_late_outside_src"]),
    ("RoutineAstXM.v", ["RAX_mar_agree", "RAX_mar_src", "RAX_mar_iterable_src", "RAX_mar_mapping_src", "RAX_mar_tuple_src",
                        "RAX_mar_struct_src", "RAX_mar_union_src"]),
]

SIDES = {"DU": ("unmarshals", "AbstractUnmarshaller", "Unmarshaller"),
         "DM": ("marshals", "AbstractMarshaller", "Marshaller")}
HEADS = ["SubscriptedIterable", "SubscriptedMapping", "FixedTuple", "StructuredType", "Union"]
# translated as well, but Core has no iterator values: reported, not compared
EXTRA = {"DU": ["SubscriptedIteratorUnmarshaller"], "DM": []}
# concrete routine classes that are LEAVES of the core model (runtime tables, tied elsewhere)
LEAVES = {
    "DU": {"NoOpUnmarshaller", "NoneTypeUnmarshaller", "BytesUnmarshaller", "StringUnmarshaller", "NumberUnmarshaller",
           "DateUnmarshaller", "DateTimeUnmarshaller", "TimeUnmarshaller", "TimeDeltaUnmarshaller", "UUIDUnmarshaller",
           "PatternUnmarshaller", "CastUnmarshaller", "PathUnmarshaller", "EnumUnmarshaller", "LiteralUnmarshaller"},
    "DM": {"NoOpMarshaller", "NoneTypeMarshaller", "CastMarshaller", "ToStringMarshaller", "EnumMarshaller",
           "PatternMarshaller", "ToISOTimeMarshaller", "LiteralMarshaller", "MappingMarshaller", "IterableMarshaller"},
}


class Closed(Exception):
    """the source is outside what the translator understands: fail closed"""


def _src(node):
    try:
        return ast.unparse(node)
    except Exception:  # noqa: BLE001
        return ast.dump(node)[:80]


def closed(node, why):
    raise Closed(f"line {getattr(node, 'lineno', '?')}: {why}: `{_src(node)[:90]}`")


# ----------------------------------------------------------------------------------
# symbolic values
# ----------------------------------------------------------------------------------
# tlist terms: "LArgs" | ("LNones", l) | ("LNotNones", l) | ("LApp", a, b) | ("LIfOptional", a, b)
# pure values:  ("t",) ("origin",) ("context",) ("ty", i) ("tl", tlist) ("sub", i) ("subs", tlist) ("ctor", "COrigin")
#               ("fields",) ("required",) ("nullable",)
# programs:     P(term, kind) with kind in val | list | pairs | gen | genkv | kw ; term = nested tuples

class P:
    __slots__ = ("term", "kind", "used", "origin")

    def __init__(self, term, kind, origin=None):
        self.term, self.kind, self.used, self.origin = term, kind, False, origin

    @property
    def pure(self):
        return self.term == ("Input",)


def coq_tl(tl):
    if tl == "LArgs":
        return "LArgs"
    return "(" + tl[0] + " " + " ".join(coq_tl(x) for x in tl[1:]) + ")"


def coq_prog(term):
    head = term[0]
    if head == "Input":
        return "Input"
    parts = []
    for x in term[1:]:
        if isinstance(x, tuple) and x and x[0] == "SArg":
            parts.append(f"(SArg {x[1]})")
        elif isinstance(x, tuple) and x and x[0] == "SEach":
            parts.append(f"(SEach {coq_tl(x[1])})")
        elif isinstance(x, str):
            parts.append(x)
        else:
            sub = coq_prog(x)
            parts.append(sub if sub == "Input" else f"({sub})")
    return head + " " + " ".join(parts)


def _is_attr(node, base, attr=None):
    return (isinstance(node, ast.Attribute) and isinstance(node.value, ast.Name) and node.value.id == base
            and (attr is None or node.attr == attr))


def _is_name(node, name=None):
    return isinstance(node, ast.Name) and (name is None or node.id == name)


def _strip_doc(body):
    if body and isinstance(body[0], ast.Expr) and isinstance(body[0].value, ast.Constant) and isinstance(body[0].value.value, str):
        return body[1:]
    return body


def _plain_params(fn, names):
    a = fn.args
    got = [x.arg for x in a.posonlyargs + a.args]
    return got == names and not a.vararg and not a.kwarg


# ----------------------------------------------------------------------------------
# __init__
# ----------------------------------------------------------------------------------

def _is_args_call(node):
    """inspection.args(t, evaluate=True)"""
    return (isinstance(node, ast.Call) and _is_attr(node.func, "inspection", "args") and len(node.args) == 1
            and len(node.keywords) == 1 and node.keywords[0].arg == "evaluate"
            and isinstance(node.keywords[0].value, ast.Constant) and node.keywords[0].value.value is True)


class Init:
    """symbolic evaluation of a routine class's __init__(self, t, context, *, var=None)"""

    def __init__(self, cls: ast.ClassDef, helpers: dict):
        self.cls, self.helpers = cls, helpers
        self.attrs: dict[str, tuple] = {}
        self.locals: dict[str, tuple] = {}

    def run(self, fn: ast.FunctionDef):
        if fn.decorator_list:
            closed(fn, "decorated __init__")
        if not _plain_params(fn, ["self", "t", "context"]) or [k.arg for k in fn.args.kwonlyargs] != ["var"]:
            closed(fn, "__init__ is not (self, t, context, *, var=None)")
        self.locals = {"t": ("t",), "context": ("context",)}
        body = _strip_doc(fn.body)
        if not body or not self._is_super_init(body[0]):
            closed(fn, "__init__ does not start with super().__init__(t, context, var=var)")
        self.attrs = {"t": ("t",), "origin": ("origin",), "context": ("context",), "var": ("var",)}
        for st in body[1:]:
            self.stmt(st)
        return self.attrs

    @staticmethod
    def _is_super_init(st):
        if not (isinstance(st, ast.Expr) and isinstance(st.value, ast.Call)):
            return False
        c = st.value
        f = c.func
        if not (isinstance(f, ast.Attribute) and f.attr == "__init__" and isinstance(f.value, ast.Call)
                and _is_name(f.value.func, "super") and not f.value.args and not f.value.keywords):
            return False
        pos = [a.id if _is_name(a) else None for a in c.args]
        kw = {k.arg: (k.value.id if _is_name(k.value) else None) for k in c.keywords}
        given = dict(zip(["t", "context"], pos), **kw)
        return len(pos) <= 2 and given == {"t": "t", "context": "context", "var": "var"}

    def stmt(self, st):
        if isinstance(st, ast.Assign) and len(st.targets) == 1:
            tgt, val = st.targets[0], st.value
        elif isinstance(st, ast.AnnAssign) and st.value is not None:
            tgt, val = st.target, st.value
        elif isinstance(st, ast.If):
            return self.if_optional(st)
        else:
            closed(st, "__init__: statement not understood")
        if _is_attr(tgt, "self"):
            self.attrs[tgt.attr] = self.ev(val)
            return
        if _is_name(tgt):
            self.locals[tgt.id] = self.ev(val)
            return
        if isinstance(tgt, ast.Tuple):
            # a, b = inspection.args(..)  |  (a, *_) = inspection.args(..)
            v = self.ev(val)
            if v != ("tl", "LArgs"):
                closed(st, "__init__: only inspection.args(t, evaluate=True) is unpacked")
            for i, e in enumerate(tgt.elts):
                if isinstance(e, ast.Starred):
                    if i != len(tgt.elts) - 1 or not _is_name(e.value):
                        closed(st, "__init__: starred target not last")
                    self.locals[e.value.id] = ("rest", i)
                elif _is_name(e):
                    self.locals[e.id] = ("ty", i)
                else:
                    closed(st, "__init__: unpacking target")
            return
        closed(st, "__init__: assignment target not understood")

    def if_optional(self, st):
        # if inspection.isoptionaltype(t): self.X = <tuple of members>
        if st.orelse or self.ev(st.test) != ("nullable",) or len(st.body) != 1:
            closed(st, "__init__: only `if inspection.isoptionaltype(t): self.x = ...` is understood")
        a = st.body[0]
        if not (isinstance(a, ast.Assign) and len(a.targets) == 1 and _is_attr(a.targets[0], "self")):
            closed(a, "__init__: body of the optional branch is not one attribute assignment")
        name = a.targets[0].attr
        old = self.attrs.get(name)
        new = self.ev(a.value)
        if not (old and old[0] == "tl" and new[0] == "tl"):
            closed(a, "__init__: the optional branch does not reorder a tuple of member annotations")
        self.attrs[name] = ("tl", ("LIfOptional", new[1], old[1]))

    def ev(self, e):
        if _is_name(e):
            if e.id in self.locals:
                return self.locals[e.id]
            closed(e, "__init__: unknown name")
        if _is_attr(e, "self"):
            if e.attr in self.attrs:
                return self.attrs[e.attr]
            closed(e, "__init__: attribute read before it is stored")
        if _is_args_call(e):
            if not (_is_name(e.args[0], "t") or _is_attr(e.args[0], "self", "t")):
                closed(e, "__init__: inspection.args of something else than t")
            return ("tl", "LArgs")
        if isinstance(e, ast.Call) and _is_attr(e.func, "inspection", "isoptionaltype") and len(e.args) == 1 \
                and not e.keywords and self.ev(e.args[0]) == ("t",):
            return ("nullable",)
        if isinstance(e, ast.Subscript):
            base, key = self.ev(e.value), self.ev(e.slice)
            if base == ("context",) and key[0] == "ty":
                return ("sub", key[1])
            closed(e, "__init__: subscript is not context[<member annotation>]")
        if isinstance(e, ast.ListComp):
            return self.each(e)
        if isinstance(e, ast.Tuple):
            return self.member_tuple(e)
        if isinstance(e, ast.Call) and _is_name(e.func, "_factory") and len(e.args) == 1 and not e.keywords:
            if self.ev(e.args[0]) != ("origin",):
                closed(e, "__init__: _factory of something else than self.origin")
            self.helpers["need_factory"] = True
            return ("ctor", "CFactory")
        if isinstance(e, ast.Call) and _is_attr(e.func, "self") and not e.args and not e.keywords \
                and e.func.attr in ("_fields_by_var", "_required_keys"):
            self.helpers["need_" + e.func.attr] = True
            return ("fields",) if e.func.attr == "_fields_by_var" else ("required",)
        closed(e, "__init__: expression not understood")

    def each(self, e):
        # [self.context[x] for x in <tl>]
        if len(e.generators) != 1:
            closed(e, "__init__: nested comprehension")
        g = e.generators[0]
        if g.ifs or g.is_async or not _is_name(g.target):
            closed(e, "__init__: filtered comprehension")
        src = self.ev(g.iter)
        if src[0] != "tl":
            closed(e, "__init__: comprehension over something else than the member annotations")
        x = g.target.id
        if x in self.locals:
            closed(e, "__init__: comprehension variable shadows a name in use")
        elt = e.elt
        if not (isinstance(elt, ast.Subscript) and self.ev(elt.value) == ("context",) and _is_name(elt.slice, x)):
            closed(e, "__init__: comprehension element is not context[x]")
        return ("subs", src[1])

    def member_tuple(self, e):
        # (*(a for a in X if inspection.isnonetype(a)), *(a for a in X if not inspection.isnonetype(a)))
        parts = []
        for el in e.elts:
            if not (isinstance(el, ast.Starred) and isinstance(el.value, ast.GeneratorExp)):
                closed(e, "__init__: tuple display of something else than starred generators")
            ge = el.value
            if len(ge.generators) != 1:
                closed(ge, "__init__: nested generator")
            g = ge.generators[0]
            if g.is_async or not _is_name(g.target) or not _is_name(ge.elt, g.target.id) or len(g.ifs) != 1:
                closed(ge, "__init__: generator is not `a for a in X if <test>`")
            if g.target.id in self.locals:
                closed(ge, "__init__: generator variable shadows a name in use")
            src = self.ev(g.iter)
            if src[0] != "tl":
                closed(ge, "__init__: generator over something else than the member annotations")
            test, neg = g.ifs[0], False
            if isinstance(test, ast.UnaryOp) and isinstance(test.op, ast.Not):
                test, neg = test.operand, True
            if not (isinstance(test, ast.Call) and _is_attr(test.func, "inspection", "isnonetype") and len(test.args) == 1
                    and not test.keywords and _is_name(test.args[0], g.target.id)):
                closed(ge, "__init__: filter is not [not] inspection.isnonetype(a)")
            parts.append(("LNotNones" if neg else "LNones", src[1]))
        if not parts:
            closed(e, "__init__: empty tuple")
        tl = parts[-1]
        for p in reversed(parts[:-1]):
            tl = ("LApp", p, tl)
        return ("tl", tl)


# ---- shapes of the helpers __init__ relies on ----

def check_base_init(cls: ast.ClassDef):
    fn = next((s for s in cls.body if isinstance(s, ast.FunctionDef) and s.name == "__init__"), None)
    if fn is None:
        raise Closed(f"{cls.name} has no __init__")
    want = {"t": "t", "origin": "inspection.origin(self.t)", "context": "context", "var": "var"}
    got = {}
    for st in _strip_doc(fn.body):
        if isinstance(st, ast.Assign) and len(st.targets) == 1 and _is_attr(st.targets[0], "self"):
            got[st.targets[0].attr] = _src(st.value)
        else:
            closed(st, f"{cls.name}.__init__: statement not understood")
    if got != want:
        raise Closed(f"{cls.name}.__init__ stores {got}, expected {want}")
    extra = set(_class_methods(cls)) - {"__init__", "__call__", "__repr__"}
    if extra or cls.decorator_list or cls.keywords:
        raise Closed(f"{cls.name} has hooks outside the fragment: {sorted(extra)}")


def check_factory(tree: ast.Module):
    """_factory(origin): `return origin` unless the origin is a defaultdict class"""
    fn = next((s for s in tree.body if isinstance(s, ast.FunctionDef) and s.name == "_factory"), None)
    if fn is None:
        raise Closed("no function _factory")
    if not _plain_params(fn, ["origin"]) or fn.args.kwonlyargs or fn.decorator_list:
        closed(fn, "_factory is not (origin)")
    body = _strip_doc(fn.body)
    if not body or not (isinstance(body[-1], ast.Return) and _is_name(body[-1].value, "origin")):
        closed(fn, "_factory does not end with `return origin`")
    for st in body[:-1]:
        ok = (isinstance(st, ast.If) and not st.orelse and len(st.body) == 1 and isinstance(st.body[0], ast.Return)
              and isinstance(st.test, ast.BoolOp) and isinstance(st.test.op, ast.And)
              and any(isinstance(v, ast.Call) and _is_name(v.func, "issubclass") and len(v.args) == 2
                      and _is_name(v.args[0], "origin") and _src(v.args[1]) == "collections.defaultdict"
                      for v in st.test.values))
        if not ok:
            closed(st, "_factory: a special case other than `issubclass(origin, collections.defaultdict)`")


def check_fields_by_var(cls: ast.ClassDef, noop: str):
    """one routine per evaluated type hint of self.t: context.get(hint) or context.get(resolved), else a NoOp"""
    fn = next((s for s in cls.body if isinstance(s, ast.FunctionDef) and s.name == "_fields_by_var"), None)
    if fn is None:
        raise Closed(f"{cls.name} has no _fields_by_var")
    if not _plain_params(fn, ["self"]) or fn.decorator_list:
        closed(fn, "_fields_by_var is not (self)")
    body = _strip_doc(fn.body)
    if len(body) != 4:
        closed(fn, "_fields_by_var: expected `d = {}`, `hints = ..`, the loop, `return d`")
    s_d, s_h, s_for, s_ret = body
    if not (isinstance(s_d, ast.Assign) and _is_name(s_d.targets[0]) and isinstance(s_d.value, ast.Dict) and not s_d.value.keys):
        closed(s_d, "_fields_by_var: first statement is not `d = {}`")
    d = s_d.targets[0].id
    if not (isinstance(s_h, ast.Assign) and _is_name(s_h.targets[0])
            and _src(s_h.value) == "inspection.cached_type_hints(self.t)"):
        closed(s_h, "_fields_by_var: hints are not inspection.cached_type_hints(self.t)")
    h = s_h.targets[0].id
    if not (isinstance(s_ret, ast.Return) and _is_name(s_ret.value, d)):
        closed(s_ret, "_fields_by_var does not return the dict it fills")
    if not (isinstance(s_for, ast.For) and not s_for.orelse and _src(s_for.iter) == f"{h}.items()"
            and isinstance(s_for.target, ast.Tuple) and len(s_for.target.elts) == 2
            and all(_is_name(x) for x in s_for.target.elts)):
        closed(s_for, "_fields_by_var: loop is not `for name, hint in hints.items()`")
    name, hint = (x.id for x in s_for.target.elts)
    lb = s_for.body
    want = [
        f"if type({hint}) is tp.TypeVar:\n    {hint} = inspection.normalize_typevar({hint})",
        f"resolved = refs.evaluate({hint})",
        f"m = self.context.get({hint}) or self.context.get(resolved)",
        None,
        f"{d}[{name}] = m",
    ]
    if len(lb) != len(want):
        closed(s_for, "_fields_by_var: loop body has another number of statements")
    for st, w in zip(lb, want):
        if w is not None and _src(st) != w:
            closed(st, f"_fields_by_var: expected `{w.splitlines()[0]}`")
    miss = lb[3]
    ok = (isinstance(miss, ast.If) and not miss.orelse and _src(miss.test) == "m is None" and len(miss.body) == 3
          and isinstance(miss.body[0], ast.Expr) and _src(miss.body[0].value).startswith("warnings.warn(")
          and _src(miss.body[1]) == f"{d}[{name}] = {noop}({hint}, self.context, var={name})"
          and isinstance(miss.body[2], ast.Continue))
    if not ok:
        closed(miss, f"_fields_by_var: the fallback is not `if m is None: warn; d[name] = {noop}(..); continue`")


def check_required_keys(cls: ast.ClassDef):
    """frozenset() unless self.t is a TypedDict; otherwise a frozenset computed from the class"""
    fn = next((s for s in cls.body if isinstance(s, ast.FunctionDef) and s.name == "_required_keys"), None)
    if fn is None:
        raise Closed(f"{cls.name} has no _required_keys")
    body = _strip_doc(fn.body)
    if not body or _src(body[0]) != "if not inspection.istypeddict(self.t):\n    return frozenset()":
        closed(fn, "_required_keys does not start with `if not inspection.istypeddict(self.t): return frozenset()`")
    if not (isinstance(body[-1], ast.Return) and isinstance(body[-1].value, ast.Call)
            and _is_name(body[-1].value.func, "frozenset")):
        closed(body[-1], "_required_keys does not return a frozenset")
    for st in body[1:-1]:
        for n in ast.walk(st):
            if isinstance(n, ast.Return):
                closed(n, "_required_keys: another return")


# ----------------------------------------------------------------------------------
# __call__
# ----------------------------------------------------------------------------------

class CallBody:
    def __init__(self, attrs: dict, cls_name: str):
        self.attrs, self.cls_name = attrs, cls_name
        self.env: dict[str, object] = {}
        self.val = None
        self.created: list[P] = []       # every effectful program value, in creation order

    # -- linear bookkeeping
    def mk(self, term, kind, node, *consumed):
        for c in consumed:
            self.consume(c, node)
        pend = [p for p in self.created if not p.used]
        if pend:
            closed(node, f"an effect starts while `{_src(pend[0].origin)[:60]}` is pending (order of evaluation)")
        p = P(term, kind, node)
        self.created.append(p)
        return p

    def consume(self, p, node):
        if isinstance(p, P) and not p.pure:
            if p.used:
                closed(node, f"`{_src(p.origin)[:60]}` is used twice")
            p.used = True

    def want(self, v, kinds, node, what):
        if not (isinstance(v, P) and v.kind in kinds):
            closed(node, f"{what}: expected {'/'.join(kinds)}")
        return v

    # -- expressions
    def ev(self, e):
        if _is_name(e):
            if e.id == self.val:
                return P(("Input",), "val", e)
            if e.id in self.env:
                return self.env[e.id]
            closed(e, "unknown name")
        if _is_attr(e, "self"):
            if e.attr in self.attrs:
                v = self.attrs[e.attr]
                return ("ctor", "COrigin") if v == ("origin",) else v
            closed(e, "attribute __init__ does not store")
        if isinstance(e, ast.Call):
            return self.call(e)
        if isinstance(e, ast.GeneratorExp):
            return self.comp(e, e.elt, lazy=True)
        if isinstance(e, ast.ListComp):
            g = self.comp(e, e.elt, lazy=True)
            self.want(g, ("gen",), e, "list display")
            return self.mk(("Construct", "CList", g.term), "val", e, g)
        if isinstance(e, ast.DictComp):
            return self.dictcomp(e)
        if isinstance(e, ast.Tuple) and len(e.elts) == 1 and isinstance(e.elts[0], ast.Starred):
            return self.materialise(e.elts[0].value, e)
        if isinstance(e, ast.List) and len(e.elts) == 1 and isinstance(e.elts[0], ast.Starred):
            g = self.want(self.ev(e.elts[0].value), ("gen",), e, "[*g]")
            return self.mk(("Construct", "CList", g.term), "val", e, g)
        closed(e, "expression not understood")

    def materialise(self, inner, node):
        """(*x,) / tuple(x): only a bounded prefix of the members (islice) is understood"""
        v = self.ev(inner)
        if isinstance(v, P) and v.kind == "slice":
            self.consume(v, node)
            # the slice is pending by construction: re-issue it as the materialised tuple
            p = P(v.term, "list", node)
            self.created.append(p)
            return p
        closed(node, "tuple of something else than itertools.islice(<members>, len(<routines>))")

    def call(self, e):
        f = e.func
        # serdes.load / itervalues / iteritems
        if _is_attr(f, "serdes") and f.attr in ("load", "itervalues", "iteritems"):
            if len(e.args) != 1 or e.keywords:
                closed(e, "serdes call with other than one argument")
            a = self.want(self.ev(e.args[0]), ("val",), e, f"serdes.{f.attr}")
            head, kind = {"load": ("Load", "val"), "itervalues": ("IterValues", "list"), "iteritems": ("IterItems", "pairs")}[f.attr]
            return self.mk((head, a.term), kind, e, a)
        if _is_attr(f, "serdes"):
            closed(e, f"serdes.{f.attr} is not part of the composite fragment")
        # itertools.islice(L, len(RS))
        if _is_attr(f, "itertools", "islice"):
            if len(e.args) != 2 or e.keywords:
                closed(e, "islice with other than (iterable, stop)")
            rs = self.len_of(e.args[1])
            a = self.want(self.ev(e.args[0]), ("list",), e, "islice")
            return self.mk(("TakeLen", ("SEach", rs), a.term), "slice", e, a)
        if _is_name(f, "tuple") and len(e.args) == 1 and not e.keywords and "tuple" not in self.env:
            return self.materialise(e.args[0], e)
        if _is_name(f) and f.id in ("list", "dict") and f.id not in self.env and len(e.args) == 1 and not e.keywords:
            g = self.ev(e.args[0])
            if f.id == "list":
                self.want(g, ("gen",), e, "list(..)")
                return self.mk(("Construct", "CList", g.term), "val", e, g)
            self.want(g, ("genkv",), e, "dict(..)")
            return self.mk(("Construct", "CDict", g.term), "val", e, g)
        if _is_name(f, "zip"):
            closed(e, "zip outside `for r, v in zip(<routines>, <members>)`")
        fv = self.ev(f)
        if isinstance(fv, tuple) and fv[0] == "ctor":
            if len(e.args) != 1 or e.keywords:
                closed(e, "constructor called with other than one argument")
            g = self.want(self.ev(e.args[0]), ("gen", "genkv"), e, "argument of the constructor")
            return self.mk(("Construct", fv[1], g.term), "val", e, g)
        if fv == ("t",):
            if e.args or len(e.keywords) != 1 or e.keywords[0].arg is not None:
                closed(e, "self.t called with other than **kwargs")
            k = self.want(self.ev(e.keywords[0].value), ("kw",), e, "self.t(**k)")
            return self.mk(("CallT", k.term), "val", e, k)
        if isinstance(fv, tuple) and fv[0] == "sub":
            closed(e, "a member routine is called outside a comprehension over the members")
        closed(e, "call not understood")

    def len_of(self, e):
        """len(<routines>) -> tlist"""
        if not (isinstance(e, ast.Call) and _is_name(e.func, "len") and len(e.args) == 1 and not e.keywords):
            closed(e, "expected len(<routines>)")
        v = self.ev(e.args[0])
        if not (isinstance(v, tuple) and v[0] == "subs"):
            closed(e, "len of something else than the stored routines")
        return v[1]

    def _applied(self, elt, var, node):
        """r(var) with r a stored routine -> ("SArg", i)"""
        if not (isinstance(elt, ast.Call) and len(elt.args) == 1 and not elt.keywords and _is_name(elt.args[0], var)):
            closed(node, f"element is not <routine>({var})")
        r = self.ev(elt.func)
        if not (isinstance(r, tuple) and r[0] == "sub"):
            closed(elt, "not a routine stored by __init__")
        return ("SArg", r[1])

    def _fresh(self, names, node):
        for n in names:
            if n in self.env or n == self.val or n == "self":
                closed(node, f"comprehension variable {n} shadows a name in use")
        if len(set(names)) != len(names):
            closed(node, "comprehension variables repeat")

    def comp(self, e, elt, lazy):
        if len(e.generators) != 1:
            closed(e, "nested comprehension")
        g = e.generators[0]
        if g.ifs or g.is_async:
            closed(e, "filtered comprehension")
        # zip(RS, L)
        if isinstance(g.iter, ast.Call) and _is_name(g.iter.func, "zip") and "zip" not in self.env:
            z = g.iter
            if len(z.args) != 2 or z.keywords:
                closed(z, "zip with other than two arguments")
            rs = self.ev(z.args[0])
            if not (isinstance(rs, tuple) and rs[0] == "subs"):
                closed(z, "zip: first argument is not the stored routines")
            src = self.want(self.ev(z.args[1]), ("list",), z, "zip: second argument")
            if not (isinstance(g.target, ast.Tuple) and len(g.target.elts) == 2 and all(_is_name(x) for x in g.target.elts)):
                closed(e, "zip: target is not (r, v)")
            r, v = (x.id for x in g.target.elts)
            self._fresh([r, v], e)
            if not (isinstance(elt, ast.Call) and _is_name(elt.func, r) and len(elt.args) == 1 and not elt.keywords
                    and _is_name(elt.args[0], v)):
                closed(e, f"zip: element is not {r}({v})")
            return self.mk(("ZipApply", ("SEach", rs[1]), src.term), "gen", e, src)
        src = self.ev(g.iter)
        if isinstance(src, P) and src.kind == "list":
            if not _is_name(g.target):
                closed(e, "target over members is not a name")
            v = g.target.id
            self._fresh([v], e)
            s = self._applied(elt, v, e)
            return self.mk(("MapEach", s, src.term), "gen", e, src)
        if isinstance(src, P) and src.kind == "pairs":
            if not (isinstance(g.target, ast.Tuple) and len(g.target.elts) == 2 and all(_is_name(x) for x in g.target.elts)):
                closed(e, "target over items is not (k, v)")
            k, v = (x.id for x in g.target.elts)
            self._fresh([k, v], e)
            if not (isinstance(elt, ast.Tuple) and len(elt.elts) == 2):
                closed(e, "element over items is not a pair")
            ks, vs = self._applied(elt.elts[0], k, e), self._applied(elt.elts[1], v, e)
            return self.mk(("MapKV", ks, vs, src.term), "genkv", e, src)
        closed(e, "comprehension over something else than serdes.itervalues / iteritems")

    def dictcomp(self, e):
        if len(e.generators) != 1:
            closed(e, "nested comprehension")
        g = e.generators[0]
        if g.is_async:
            closed(e, "async comprehension")
        src = self.want(self.ev(g.iter), ("pairs",), e, "dict display")
        if not (isinstance(g.target, ast.Tuple) and len(g.target.elts) == 2 and all(_is_name(x) for x in g.target.elts)):
            closed(e, "target over items is not (k, v)")
        k, v = (x.id for x in g.target.elts)
        self._fresh([k, v], e)
        if not g.ifs:
            ks, vs = self._applied(e.key, k, e), self._applied(e.value, v, e)
            return self.mk(("Construct", "CDict", ("MapKV", ks, vs, src.term)), "val", e, src)
        # {f: F[f](v) for f, v in P if f in F}
        if len(g.ifs) != 1:
            closed(e, "several filters")
        t = g.ifs[0]
        ok = (isinstance(t, ast.Compare) and len(t.ops) == 1 and isinstance(t.ops[0], ast.In) and _is_name(t.left, k)
              and self.ev(t.comparators[0]) == ("fields",))
        if not ok:
            closed(e, f"filter is not `{k} in <fields_by_var>`")
        val = e.value
        ok = (_is_name(e.key, k) and isinstance(val, ast.Call) and len(val.args) == 1 and not val.keywords
              and _is_name(val.args[0], v) and isinstance(val.func, ast.Subscript)
              and self.ev(val.func.value) == ("fields",) and _is_name(val.func.slice, k))
        if not ok:
            closed(e, f"entry is not `{k}: <fields_by_var>[{k}]({v})`")
        return self.mk(("KwargsIn", src.term), "kw", e, src)

    # -- statements
    def run(self, fn: ast.FunctionDef):
        if fn.decorator_list:
            closed(fn, "decorated __call__")
        a = fn.args
        if len(a.posonlyargs + a.args) != 2 or a.vararg or a.kwarg or a.kwonlyargs or a.defaults:
            closed(fn, "__call__ is not (self, val)")
        if (a.posonlyargs + a.args)[0].arg != "self":
            closed(fn, "first parameter is not self")
        self.val = (a.posonlyargs + a.args)[1].arg
        body = _strip_doc(fn.body)
        wrap = []
        # if self.nullable and val is None: return val
        if body and isinstance(body[0], ast.If) and self.is_nullable_none(body[0].test):
            st = body[0]
            if st.orelse or len(st.body) != 1 or not (isinstance(st.body[0], ast.Return) and _is_name(st.body[0].value, self.val)):
                closed(st, "the None short-cut does not `return val`")
            wrap.append("IfNullableNone")
            body = body[1:]
        term = self.block(body, fn)
        for w in reversed(wrap):
            term = (w, term)
        return term

    def is_nullable_none(self, t):
        if not (isinstance(t, ast.BoolOp) and isinstance(t.op, ast.And) and len(t.values) == 2):
            return False
        def is_none(x):
            return (isinstance(x, ast.Compare) and len(x.ops) == 1 and isinstance(x.ops[0], ast.Is) and _is_name(x.left, self.val)
                    and isinstance(x.comparators[0], ast.Constant) and x.comparators[0].value is None)
        def is_nullable(x):
            try:
                return _is_attr(x, "self") and self.attrs.get(x.attr) == ("nullable",)
            except Closed:
                return False
        a, b = t.values
        return (is_nullable(a) and is_none(b)) or (is_none(a) and is_nullable(b))

    def block(self, body, fn):
        for i, st in enumerate(body):
            if isinstance(st, ast.Return):
                if i != len(body) - 1:
                    closed(st, "statements after return")
                if st.value is None:
                    closed(st, "bare return")
                v = self.ev(st.value)
                if not isinstance(v, P):
                    closed(st, "returns something that is not computed from the input")
                self.consume(v, st)
                left = [p for p in self.created if not p.used]
                if left:
                    closed(left[0].origin, "computed but never used")
                if v.kind == "slice":
                    closed(st, "returns an unconsumed islice")
                return v.term
            if isinstance(st, ast.For):
                return self.union_loop(st, body[i + 1:])
            if isinstance(st, (ast.Assign, ast.AnnAssign)):
                tgt = st.targets[0] if isinstance(st, ast.Assign) and len(st.targets) == 1 else getattr(st, "target", None)
                if not _is_name(tgt) or st.value is None:
                    closed(st, "assignment target is not a local name")
                if tgt.id in self.env or tgt.id == self.val or tgt.id == "self":
                    closed(st, f"{tgt.id} is assigned twice")
                self.env[tgt.id] = self.ev(st.value)
                continue
            if isinstance(st, ast.If):
                self.guard(st)
                continue
            closed(st, "statement not understood")
        closed(fn, "body does not end with return")

    def guard(self, st):
        if st.orelse:
            closed(st, "if/else")
        t = st.test
        # if len(x) < len(RS): raise ValueError(..)
        if (isinstance(t, ast.Compare) and len(t.ops) == 1 and isinstance(t.ops[0], ast.Lt)
                and isinstance(t.left, ast.Call) and _is_name(t.left.func, "len") and len(t.left.args) == 1
                and _is_name(t.left.args[0]) and t.left.args[0].id in self.env):
            x = t.left.args[0].id
            rs = self.len_of(t.comparators[0])
            v = self.want(self.env[x], ("list",), st, "len(x) < len(routines)")
            if v.used:
                closed(st, f"{x} is tested after it was consumed")
            self.raises(st.body, "ValueError", st)
            v.term = ("GuardLen", ("SEach", rs), v.term)
            return
        # if not self.required_keys <= k.keys(): ... raise TypeError(..)
        if isinstance(t, ast.UnaryOp) and isinstance(t.op, ast.Not):
            c = t.operand
            if (isinstance(c, ast.Compare) and len(c.ops) == 1 and isinstance(c.ops[0], ast.LtE)
                    and self.ev(c.left) == ("required",)):
                r = c.comparators[0]
                if (isinstance(r, ast.Call) and isinstance(r.func, ast.Attribute) and r.func.attr == "keys" and not r.args
                        and _is_name(r.func.value) and r.func.value.id in self.env):
                    k = r.func.value.id
                    v = self.want(self.env[k], ("kw",), st, "required_keys <= k.keys()")
                    if v.used:
                        closed(st, f"{k} is tested after it was consumed")
                    self.raises(st.body, "TypeError", st)
                    v.term = ("RequireKeys", v.term)
                    return
        closed(st, "guard not understood")

    def raises(self, body, exc, node):
        """a block that only computes a message and raises `exc`"""
        if not body or not isinstance(body[-1], ast.Raise):
            closed(node, f"guard does not end with raise {exc}")
        r = body[-1]
        if r.cause is not None or not (isinstance(r.exc, ast.Call) and _is_name(r.exc.func, exc)):
            closed(r, f"guard raises something else than {exc}(..)")
        for st in body[:-1]:
            if not (isinstance(st, ast.Assign) and len(st.targets) == 1 and _is_name(st.targets[0])
                    and st.targets[0].id not in self.env and st.targets[0].id != self.val):
                closed(st, "guard body does more than compute the message")

    def union_loop(self, st, rest):
        """for r in RS: with contextlib.suppress(Exception): [x =] r(val); return x   then   raise ValueError(..)"""
        if [p for p in self.created if not p.used]:
            closed(st, "an effect is pending before the loop over the member routines")
        if st.orelse or not _is_name(st.target):
            closed(st, "loop with else / structured target")
        r = st.target.id
        self._fresh([r], st)
        rs = self.ev(st.iter)
        if not (isinstance(rs, tuple) and rs[0] == "subs"):
            closed(st.iter, "loop over something else than the stored member routines")
        if len(st.body) != 1 or not isinstance(st.body[0], ast.With):
            closed(st, "loop body is not one `with contextlib.suppress(Exception):`")
        w = st.body[0]
        if len(w.items) != 1 or w.items[0].optional_vars is not None \
                or _src(w.items[0].context_expr) != "contextlib.suppress(Exception)":
            closed(w, "not `with contextlib.suppress(Exception):`")

        def applied(e):
            return (isinstance(e, ast.Call) and _is_name(e.func, r) and len(e.args) == 1 and not e.keywords
                    and _is_name(e.args[0], self.val))
        wb = w.body
        if len(wb) == 1 and isinstance(wb[0], ast.Return) and applied(wb[0].value):
            pass
        elif (len(wb) == 2 and isinstance(wb[0], ast.Assign) and len(wb[0].targets) == 1 and _is_name(wb[0].targets[0])
              and applied(wb[0].value) and isinstance(wb[1], ast.Return) and _is_name(wb[1].value, wb[0].targets[0].id)
              and wb[0].targets[0].id not in (r, self.val)):
            pass
        else:
            closed(w, f"suppressed block is not `[x =] {r}({self.val}); return x`")
        if len(rest) != 1:
            closed(st, "the loop is not followed by exactly one statement")
        self.raises(rest, "ValueError", rest[0])
        return ("FirstAccepting", ("SEach", rs[1]), ("Input",))


# ----------------------------------------------------------------------------------
# per file
# ----------------------------------------------------------------------------------

def _class_methods(cls: ast.ClassDef):
    out = {}
    for st in cls.body:
        if isinstance(st, (ast.FunctionDef, ast.AsyncFunctionDef)):
            if st.name in out:
                raise Closed(f"{cls.name}.{st.name} is defined twice")
            out[st.name] = st
    return out


def translate_class(tree: ast.Module, cls: ast.ClassDef, base: str, noop: str):
    """-> (prog term, {what: line})"""
    if cls.decorator_list:
        closed(cls, "decorated class")
    bases = [_src(b) for b in cls.bases]
    if not any(b == base or b.startswith(base + "[") for b in bases):
        closed(cls, f"not derived directly from {base}")
    for b in bases:
        if not (b.startswith(base) or b.startswith("tp.Generic[")):
            closed(cls, f"unexpected base {b}")
    if cls.keywords:
        closed(cls, "class keywords")
    ms = _class_methods(cls)
    extra = set(ms) - {"__init__", "__call__", "_fields_by_var", "_required_keys"}
    if extra:
        closed(cls, f"methods outside the fragment: {sorted(extra)}")
    for st in cls.body:
        if isinstance(st, ast.Assign) and any(_is_name(t, "__call__") or _is_name(t, "__init__") for t in st.targets):
            closed(st, "__call__ / __init__ rebound in the class body")
    if "__call__" not in ms:
        closed(cls, "no __call__ of its own")
    helpers = {}
    if "__init__" in ms:
        attrs = Init(cls, helpers).run(ms["__init__"])
    else:
        attrs = {"t": ("t",), "origin": ("origin",), "context": ("context",), "var": ("var",)}
    if helpers.get("need_factory"):
        check_factory(tree)
    if helpers.get("need__fields_by_var"):
        check_fields_by_var(cls, noop)
    if helpers.get("need__required_keys"):
        check_required_keys(cls)
    term = CallBody(attrs, cls.name).run(ms["__call__"])
    lines = {"__call__": ms["__call__"].lineno}
    if "__init__" in ms:
        lines["__init__"] = ms["__init__"].lineno
    return term, lines


def _concrete_live(mod, base):
    out = {}

    def rec(c):
        for s in c.__subclasses__():
            if s.__module__ == mod.__name__ and not getattr(s.__call__, "__isabstractmethod__", False):
                out[s.__name__] = s
            rec(s)
    rec(base)
    return out


def translate_side(side):
    """-> (rows [(class, term)], problems, extra rows)"""
    import importlib
    pkg, base, suffix = SIDES[side]
    problems, rows, extras = [], [], []
    path = os.path.join(lib.REPO, "src", "typelib", pkg, "routines.py")
    try:
        tree = ast.parse(open(path).read(), filename=path)
    except (OSError, SyntaxError) as e:
        return [], [f"{pkg}/routines.py: {e}"], []
    classes = {}
    for st in tree.body:
        if isinstance(st, ast.ClassDef):
            if st.name in classes:
                problems.append(f"{pkg}: class {st.name} is defined twice")
            classes[st.name] = st
        elif isinstance(st, (ast.Assign, ast.AnnAssign, ast.AugAssign, ast.Expr, ast.For, ast.While, ast.If, ast.With, ast.Try)):
            # a module-level statement that could patch a routine class after its definition
            txt = _src(st)
            for n in [h + suffix for h in HEADS] + [base]:
                if re.search(r"\b%s\s*\.\s*\w+\s*=|setattr\(\s*%s\b" % (n, n), txt):
                    problems.append(f"{pkg}: module-level statement patches {n}: `{txt[:80]}`")
    noop = "NoOp" + suffix
    try:
        if base not in classes:
            raise Closed(f"no class {base}")
        check_base_init(classes[base])
    except Closed as e:
        problems.append(f"{pkg}: {e}")
    lines = {}
    for name in [h + suffix for h in HEADS] + EXTRA[side]:
        if name not in classes:
            problems.append(f"{pkg}: no class {name}")
            continue
        try:
            term, ln = translate_class(tree, classes[name], base, noop)
        except Closed as e:
            problems.append(f"{name}: {e}")
            continue
        lines[name] = ln
        (extras if name in EXTRA[side] else rows).append((name, term))
    # the live module
    try:
        mod = importlib.import_module(f"typelib.{pkg}.routines")
        live_path = inspect.getsourcefile(mod)
        if os.path.realpath(live_path) != os.path.realpath(path):
            problems.append(f"typelib.{pkg}.routines is loaded from {live_path}, not from {path}")
        live = _concrete_live(mod, getattr(mod, base))
        known = {h + suffix for h in HEADS} | set(EXTRA[side]) | LEAVES[side]
        unknown = sorted(set(live) - known)
        if unknown:
            problems.append(f"{pkg}: concrete routine classes neither translated nor known leaves: {unknown}")
        for name, ln in lines.items():
            c = getattr(mod, name, None)
            if c is None:
                problems.append(f"{pkg}: {name} is not defined in the live module")
                continue
            for meth, line in ln.items():
                fn = c.__dict__.get(meth)
                code = getattr(fn, "__code__", None)
                if code is None or code.co_firstlineno != line or os.path.realpath(code.co_filename) != os.path.realpath(path):
                    problems.append(f"{name}.{meth} of the live class is not the function parsed at line {line}")
            for meth in ("__init__", "__call__"):
                if meth not in ln and meth in c.__dict__:
                    problems.append(f"{name}.{meth} exists in the live class but not in the parsed source")
    except Exception as e:  # noqa: BLE001 - an import error is a failed cross-check
        problems.append(f"{pkg}: cross-check with the live module crashed: {e!r}")
    return rows, problems, extras


def translate():
    """-> (GenRoutineProgs.v text, problems, summary)"""
    problems, rows, extras = [], [], []
    for side in SIDES:
        r, p, x = translate_side(side)
        rows += r
        problems += p
        extras += x
    body = ";\n    ".join(f"({coq_string(n)}, {coq_prog(t)})" for n, t in rows)
    text = ("(* generated on this run by harness/routasttie.py from the SOURCE (ast) of unmarshals/routines.py and\n"
            "   marshals/routines.py of the tree under test *)\n"
            "From Coq Require Import List String.\nImport ListNotations.\n"
            "Require Import TL.Model.Core TL.Model.RoutineAst.\nLocal Open Scope string_scope.\n"
            f"Definition translated : progtable :=\n  [ {body} ].\n")
    for n, t in extras:
        text += f"Definition extra_{n} : prog := {coq_prog(t)}.\n"
    summary = {"programs": {n: coq_prog(t) for n, t in rows}, "not_compared": {n: coq_prog(t) for n, t in extras}}
    return text, problems, summary


# ----------------------------------------------------------------------------------
# LEAF routine classes (Model/RoutineLeafAst.v): `__init__` / `__call__` bodies as small statement programs
# ----------------------------------------------------------------------------------
# Every concrete routine class that is not a composite one.  The body is translated into `lstmt` / `lexpr` of
# Model/RoutineLeafAst.v: a closed fragment of Python (assignment to one name, if / elif / else, return, raise <Exc>(..),
# `with contextlib.suppress(..)`, `for x in ..`, `super().__init__(t, context, var=var)`; expressions: names, dotted
# globals, attribute reads, calls with positional / keyword / * / ** arguments, tuples, `[*x]`, `{**x}`, one comparison,
# not / and / or / unary +, conditional expression, None / True / False).  Normalised away (harmless): docstrings,
# comments, annotations (`x: T = e` is `x = e`), `tp.cast(T, e)` (identity at runtime), the NAMES of locals and of the input
# parameter (locals are numbered by first assignment), the message of a raised exception, `type(e)` for `e.__class__`
# (the same object unless a class overrides `__class__`, which no value of the models does).  Anything else: Closed, with
# class and line.

LEAF_X_FILES = [
    ("RoutineLeafXU.v", ["RLX_unm_agree", "RLX_unm_first", "RLX_unm_entry", "RLX_unm_steps"]),
    ("RoutineLeafXM.v", ["RLX_mar_agree", "RLX_mar_steps", "RLX_mar_not_identity"]),
]
LEAF_COQ_TARGETS = COQ_TARGETS[-4:]
LEAF_PROPS = [("Props/RoutineLeafAst.v", [
    "RL_first_model", "RL_entry", "RL_entry_src", "RL_steps_unm", "RL_steps_mar", "RL_first_of_steps",
    "RL_leaf_eqb_sound", "RL_src_leaf", "RL_mar_not_identity", "RL_decode_first_iff", "RL_load_first_iff"])]

_CMP = {ast.Is: "is", ast.IsNot: "is not", ast.In: "in", ast.NotIn: "not in", ast.Eq: "==", ast.NotEq: "!=",
        ast.Lt: "<", ast.LtE: "<=", ast.Gt: ">", ast.GtE: ">="}


class LeafBody:
    """one function body -> lstmt term (nested tuples)"""

    def __init__(self, fn: ast.FunctionDef, init: bool):
        self.fn, self.init = fn, init
        a = fn.args
        pos = [x.arg for x in a.posonlyargs + a.args]
        if a.vararg or a.kwarg or a.posonlyargs:
            closed(fn, "parameters outside the fragment")
        if init:
            if pos != ["self", "t", "context"] or [x.arg for x in a.kwonlyargs] != ["var"]:
                closed(fn, "__init__ parameters are not (self, t, context, *, var)")
            self.selfname, self.val = "self", None
            self.globals_ok = {"t", "context", "var"}
        else:
            if len(pos) != 2 or a.kwonlyargs or a.defaults:
                closed(fn, "__call__ parameters are not (self, val)")
            self.selfname, self.val = pos
        if fn.decorator_list:
            closed(fn, "decorated method")
        self.locals = []
        for n in ast.walk(fn):
            if isinstance(n, (ast.Lambda, ast.FunctionDef, ast.AsyncFunctionDef, ast.ClassDef, ast.ListComp, ast.SetComp,
                              ast.DictComp, ast.GeneratorExp, ast.NamedExpr, ast.Global, ast.Nonlocal, ast.Await,
                              ast.Yield, ast.YieldFrom, ast.Try, ast.While, ast.Delete, ast.Import, ast.ImportFrom)) and n is not fn:
                closed(n, "construct outside the leaf fragment")
        # locals, by first binding in source order
        for n in self._binders(fn.body):
            if n != self.val and n not in self.locals:
                self.locals.append(n)
        if self.selfname in self.locals:
            closed(fn, "self is rebound")

    def _binders(self, body):
        for st in body:
            if isinstance(st, ast.Assign):
                for t in st.targets:
                    if isinstance(t, ast.Name):
                        yield t.id
            elif isinstance(st, ast.AnnAssign) and isinstance(st.target, ast.Name):
                yield st.target.id
            elif isinstance(st, ast.For):
                if isinstance(st.target, ast.Name):
                    yield st.target.id
                yield from self._binders(st.body)
            elif isinstance(st, ast.If):
                yield from self._binders(st.body)
                yield from self._binders(st.orelse)
            elif isinstance(st, ast.With):
                yield from self._binders(st.body)

    # -- expressions
    def name(self, e):
        if e.id == self.val:
            return ("EVal",)
        if e.id in self.locals:
            return ("ELoc", self.locals.index(e.id))
        return ("EName", e.id)

    def args(self, call):
        items = []
        for a in call.args:
            items.append(("pos", ("EStar", self.ev(a.value)) if isinstance(a, ast.Starred) else self.ev(a)))
        for k in call.keywords:
            items.append(("kw", k.arg if k.arg is not None else "**", self.ev(k.value)))
        out = ("ENil",)
        for it in reversed(items):
            out = ("ECons", it[1], out) if it[0] == "pos" else ("EKw", it[1], it[2], out)
        return out

    def seq(self, elts):
        out = ("ENil",)
        for x in reversed(elts):
            out = ("ECons", ("EStar", self.ev(x.value)) if isinstance(x, ast.Starred) else self.ev(x), out)
        return out

    def ev(self, e):
        if isinstance(e, ast.Name):
            return self.name(e)
        if isinstance(e, ast.Constant):
            if e.value is None:
                return ("ENone",)
            if e.value is True or e.value is False:
                return ("EBool", "true" if e.value else "false")
            closed(e, "constant outside the leaf fragment")
        if isinstance(e, ast.Attribute):
            v = self.ev(e.value)
            if v[0] == "EName":
                return ("EName", v[1] + "." + e.attr)
            return ("EAttr", v, e.attr)
        if isinstance(e, ast.Call):
            f = self.ev(e.func)
            if f == ("EName", "tp.cast") or f == ("EName", "typing.cast"):
                if len(e.args) != 2 or e.keywords:
                    closed(e, "tp.cast with other than two arguments")
                return self.ev(e.args[1])
            if f == ("EName", "type") and len(e.args) == 1 and not e.keywords and not isinstance(e.args[0], ast.Starred):
                return ("EAttr", self.ev(e.args[0]), "__class__")
            return ("ECall", f, self.args(e))
        if isinstance(e, ast.Tuple):
            return ("ETuple", self.seq(e.elts))
        if isinstance(e, ast.List):
            return ("EList", self.seq(e.elts))
        if isinstance(e, ast.Dict):
            out = ("ENil",)
            for k, v in reversed(list(zip(e.keys, e.values))):
                if k is not None:
                    closed(e, "dict display with keys")
                out = ("EKw", "**", self.ev(v), out)
            return ("EDict", out)
        if isinstance(e, ast.Compare):
            if len(e.ops) != 1:
                closed(e, "chained comparison")
            return ("ECmp", _CMP[type(e.ops[0])], self.ev(e.left), self.ev(e.comparators[0]))
        if isinstance(e, ast.BoolOp):
            vals = [self.ev(x) for x in e.values]
            out = vals[-1]
            for x in reversed(vals[:-1]):
                out = ("EAnd" if isinstance(e.op, ast.And) else "EOr", x, out)
            return out
        if isinstance(e, ast.UnaryOp) and isinstance(e.op, ast.Not):
            return ("ENot", self.ev(e.operand))
        if isinstance(e, ast.UnaryOp) and isinstance(e.op, ast.UAdd):
            return ("EPos", self.ev(e.operand))
        if isinstance(e, ast.IfExp):
            return ("EIfExp", self.ev(e.test), self.ev(e.body), self.ev(e.orelse))
        closed(e, "expression outside the leaf fragment")

    # -- statements
    def target(self, t):
        if isinstance(t, ast.Name):
            v = self.name(t)
            if v[0] == "EName":
                closed(t, "assignment to a non-local name")
            return v
        if self.init and _is_attr(t, self.selfname):
            return ("EName", f"self.{t.attr}")
        closed(t, "assignment target outside the leaf fragment")

    def block(self, body):
        out = ("SSkip",)
        for st in reversed(body):
            out = ("SSeq", self.stmt(st), out)
        return out

    def stmt(self, st):
        if isinstance(st, ast.Assign):
            if len(st.targets) != 1:
                closed(st, "multiple assignment targets")
            return ("SAssign", self.target(st.targets[0]), self.ev(st.value))
        if isinstance(st, ast.AnnAssign):
            if st.value is None:
                closed(st, "annotation without a value")
            return ("SAssign", self.target(st.target), self.ev(st.value))
        if isinstance(st, ast.If):
            return ("SIf", self.ev(st.test), self.block(st.body), self.block(st.orelse))
        if isinstance(st, ast.Return):
            return ("SReturn", self.ev(st.value) if st.value is not None else ("ENone",))
        if isinstance(st, ast.Raise):
            if st.cause is not None or st.exc is None:
                closed(st, "raise outside the leaf fragment")
            exc = st.exc.func if isinstance(st.exc, ast.Call) else st.exc
            if not isinstance(exc, ast.Name):
                closed(st, "raised exception is not a plain name")
            return ("SRaise", exc.id)
        if isinstance(st, ast.With):
            if len(st.items) != 1 or st.items[0].optional_vars is not None:
                closed(st, "with outside the leaf fragment")
            c = st.items[0].context_expr
            if not (isinstance(c, ast.Call) and _src(c.func) == "contextlib.suppress" and not c.keywords):
                closed(st, "with is not contextlib.suppress(..)")
            return ("SSuppress", self.seq(c.args), self.block(st.body))
        if isinstance(st, ast.For):
            if st.orelse or not isinstance(st.target, ast.Name):
                closed(st, "for outside the leaf fragment")
            return ("SFor", self.locals.index(st.target.id), self.ev(st.iter), self.block(st.body))
        if isinstance(st, ast.Expr) and self.init and _flat_super(st.value):
            return ("SSuperInit",)
        if isinstance(st, ast.Pass):
            return ("SSkip",)
        closed(st, "statement outside the leaf fragment")

    def run(self):
        return self.block(_strip_doc(self.fn.body))


def _flat_super(e):
    """super().__init__(t, context, var=var), positional or by keyword"""
    if not (isinstance(e, ast.Call) and isinstance(e.func, ast.Attribute) and e.func.attr == "__init__"
            and isinstance(e.func.value, ast.Call) and _is_name(e.func.value.func, "super")
            and not e.func.value.args and not e.func.value.keywords):
        return False
    got = {}
    for name, a in zip(("t", "context"), e.args):
        got[name] = a
    if len(e.args) > 2:
        return False
    for k in e.keywords:
        if k.arg is None or k.arg in got:
            return False
        got[k.arg] = k.value
    return set(got) == {"t", "context", "var"} and all(_is_name(v, k) for k, v in got.items())


def coq_leaf_term(t):
    head = t[0]
    if len(t) == 1:
        return head
    parts = []
    for x in t[1:]:
        if isinstance(x, tuple):
            s = coq_leaf_term(x)
            parts.append(s if len(x) == 1 else f"({s})")
        elif isinstance(x, int):
            parts.append(str(x))
        elif head == "EBool":
            parts.append(x)
        else:
            parts.append(coq_string(x))
    return head + " " + " ".join(parts)


def translate_leaf_class(cls: ast.ClassDef, base: str, classes: dict):
    """-> (base class name, init term, call term, lines)"""
    if cls.decorator_list or cls.keywords:
        closed(cls, "decorated class / class keywords")
    parents = []
    for b in cls.bases:
        txt = _src(b)
        if txt.startswith("tp.Generic["):
            continue
        root = b.value if isinstance(b, ast.Subscript) else b
        if not isinstance(root, ast.Name) or root.id not in classes:
            closed(cls, f"unexpected base {txt}")
        parents.append(root.id)
    if len(parents) != 1:
        closed(cls, f"not exactly one routine base class: {parents}")
    ms = _class_methods(cls)
    extra = set(ms) - {"__init__", "__call__"}
    if extra:
        closed(cls, f"methods outside the fragment: {sorted(extra)}")
    for st in cls.body:
        ok = (isinstance(st, (ast.FunctionDef, ast.AnnAssign)) or
              (isinstance(st, ast.Expr) and isinstance(st.value, ast.Constant)) or
              (isinstance(st, ast.Assign) and len(st.targets) == 1 and _is_name(st.targets[0], "__slots__")))
        if isinstance(st, ast.AnnAssign) and st.value is not None:
            ok = False
        if not ok:
            closed(st, "class-body statement outside the leaf fragment")
    if "__call__" not in ms:
        closed(cls, "no __call__ of its own")
    init = LeafBody(ms["__init__"], True).run() if "__init__" in ms else ("SSkip",)
    call = LeafBody(ms["__call__"], False).run()
    lines = {"__call__": ms["__call__"].lineno}
    if "__init__" in ms:
        lines["__init__"] = ms["__init__"].lineno
    return parents[0], init, call, lines


def translate_leaves_side(side):
    """-> (rows [(class, base, init, call)], aliases [(alias, class)], problems)"""
    import importlib
    pkg, base, suffix = SIDES[side]
    problems, rows, aliases = [], [], []
    path = os.path.join(lib.REPO, "src", "typelib", pkg, "routines.py")
    try:
        tree = ast.parse(open(path).read(), filename=path)
    except (OSError, SyntaxError) as e:
        return [], [], [f"{pkg}/routines.py: {e}"]
    classes = {st.name: st for st in tree.body if isinstance(st, ast.ClassDef)}
    composite = {h + suffix for h in HEADS} | set(EXTRA[side])
    lines = {}
    for st in tree.body:
        if isinstance(st, ast.ClassDef):
            if st.name == base or st.name in composite:
                continue
            try:
                b, init, call, ln = translate_leaf_class(st, base, classes)
            except Closed as e:
                problems.append(f"{st.name}: {e}")
                continue
            rows.append((st.name, b, init, call))
            lines[st.name] = ln
        elif isinstance(st, ast.Assign) and len(st.targets) == 1 and isinstance(st.targets[0], ast.Name):
            v = st.value.value if isinstance(st.value, ast.Subscript) else st.value
            if isinstance(v, ast.Name) and v.id in classes:
                aliases.append((st.targets[0].id, v.id))
        if isinstance(st, (ast.Assign, ast.AnnAssign, ast.AugAssign, ast.Expr, ast.For, ast.While, ast.If, ast.With, ast.Try)):
            txt = _src(st)
            for n in classes:
                if re.search(r"\b%s\s*\.\s*\w+\s*=|setattr\(\s*%s\b" % (n, n), txt):
                    problems.append(f"{pkg}: module-level statement patches {n}: `{txt[:80]}`")
    try:
        mod = importlib.import_module(f"typelib.{pkg}.routines")
        if os.path.realpath(inspect.getsourcefile(mod)) != os.path.realpath(path):
            problems.append(f"typelib.{pkg}.routines is not loaded from {path}")
        live = _concrete_live(mod, getattr(mod, base))
        unknown = sorted(set(live) - composite - {r[0] for r in rows})
        if unknown:
            problems.append(f"{pkg}: live concrete routine classes without a translated leaf program: {unknown}")
        for name, ln in lines.items():
            c = getattr(mod, name, None)
            if c is None:
                problems.append(f"{pkg}: {name} is not defined in the live module")
                continue
            for meth, line in ln.items():
                code = getattr(c.__dict__.get(meth), "__code__", None)
                if code is None or code.co_firstlineno != line or os.path.realpath(code.co_filename) != os.path.realpath(path):
                    problems.append(f"{name}.{meth} of the live class is not the function parsed at line {line}")
            for meth in ("__init__", "__call__"):
                if meth not in ln and meth in c.__dict__:
                    problems.append(f"{name}.{meth} exists in the live class but not in the parsed source")
        for al, target in aliases:
            got = getattr(mod, al, None)
            if getattr(got, "__origin__", got) is not getattr(mod, target, None):
                problems.append(f"{pkg}: live {al} is not an alias of {target}")
    except Exception as e:  # noqa: BLE001
        problems.append(f"{pkg}: cross-check of the leaf classes with the live module crashed: {e!r}")
    return rows, aliases, problems


def translate_leaves():
    """-> (GenRoutineLeaves.v text, problems, summary)"""
    text = ("(* generated on this run by harness/routasttie.py from the SOURCE (ast) of the LEAF routine classes of\n"
            "   unmarshals/routines.py and marshals/routines.py of the tree under test *)\n"
            "From Coq Require Import List String.\nImport ListNotations.\n"
            "Require Import TL.Model.RoutineLeafAst.\nLocal Open Scope string_scope.\n")
    problems, summary = [], {}
    for side, tag in (("DU", "u"), ("DM", "m")):
        rows, aliases, p = translate_leaves_side(side)
        problems += p
        body = ";\n    ".join(f"({coq_string(n)}, mkLeaf {coq_string(b)}\n      ({coq_leaf_term(i)})\n      ({coq_leaf_term(c)}))"
                              for n, b, i, c in rows)
        text += f"Definition leaves_{tag} : leaftable :=\n  [ {body} ].\n"
        text += (f"Definition aliases_{tag} : list (string * string) :=\n  [ "
                 + "; ".join(f"({coq_string(a)}, {coq_string(t)})" for a, t in aliases) + " ].\n")
        summary[tag] = {n: {"base": b, "init": coq_leaf_term(i), "call": coq_leaf_term(c)} for n, b, i, c in rows}
        summary[tag + "_aliases"] = dict(aliases)
    return text, problems, summary


def diagnose_leaves(run):
    txt = ("From Coq Require Import List String.\nImport ListNotations.\n"
           "Require Import TL.Model.RoutineLeafAst TLRun.GenRoutineLeaves.\n"
           "Eval vm_compute in first_disagreements leaves_u.\n"
           "Eval vm_compute in step_disagreements expected_u leaves_u.\n"
           "Eval vm_compute in step_disagreements expected_m leaves_m.\n"
           "Eval vm_compute in alias_disagreements expected_aliases_u aliases_u.\n"
           "Eval vm_compute in alias_disagreements expected_aliases_m aliases_m.\n"
           "Eval vm_compute in leaf_disagreements expected_u leaves_u.\n"
           "Eval vm_compute in leaf_disagreements expected_m leaves_m.\n")
    out = run.coq_eval("diagnose_routleaf.v", txt)
    name = ("routast-leaf:leaf programs translated from the source are the expected ones (class by class, "
            "RoutineLeafAst.expected_u / expected_m; aliases; first step = the head of Model/Serdes.v)")
    if out is None or len(out) != 7:
        run.oblige(name, False, "diagnosis did not compile: " + "; ".join(run.notes[-1:])[:300])
        return False
    msgs = []
    labels = ["FIRST STEP of an unmarshaller (class, read off the translated body, Model/Serdes.v head)",
              "unmarshal description (class, expected steps, translated steps)",
              "marshal description (class, expected steps, translated steps)",
              "unmarshal aliases", "marshal aliases",
              "unmarshal programs (class, expected, translated)", "marshal programs (class, expected, translated)"]
    for lab, o in zip(labels, out):
        o = _flat(o)
        o = re.sub(r"^=\s*", "", o)
        o = re.sub(r"\s*:\s*list \(.*$", "", o).strip()
        o = o.replace("%string", "")
        if o in ("[]", "nil"):
            continue
        msgs.append(f"{lab}: {o[:700]}")
    run.oblige(name, not msgs, " || ".join(msgs)[:4000])
    return not msgs


def leaf_obligations(run, props=True):
    text, problems, summary = translate_leaves()
    run.oblige("routast-leaf:translate leaf routine classes (ast of every non-composite routine class -> leaf program; "
               "whole __init__ / __call__ bodies inside the fragment, live classes are the parsed ones, aliases are the "
               "live aliases)", not problems, " || ".join(problems[:5]))
    run.extra_cov["routine_leaf_programs"] = summary
    ok = run.compile_dyn("GenRoutineLeaves.v", text=text)
    if ok:
        diagnose_leaves(run)
        for name, thms in LEAF_X_FILES:
            ok = run.compile_dyn(name, src=os.path.join(lib.DYN, "RoutineAst", name), theorems=thms, timeout=300) and ok
    else:
        for _, thms in LEAF_X_FILES:
            for t in thms:
                run.oblige(f"theorem:{t}", False, "generated leaf programs do not compile")
    if props:
        for rel, thms in LEAF_PROPS:
            run.check_props(rel, thms)
    run.assumptions.append(
        "routine-leaf tie: harness/routasttie.py (ast -> lstmt, fail closed) is trusted to read the leaf routine classes' "
        "bodies; RoutineLeafAst.first_of / steps are syntactic readings of the program (first serdes.decode / serdes.load "
        "applied to the input, preceded only by isinstance tests of the raw input against non-text classes); the meaning "
        "of the remaining statements stays tied by running both sides (leaftie, C04 / C14 streams)")
    return ok and not problems


# ----------------------------------------------------------------------------------
# obligations
# ----------------------------------------------------------------------------------

def _flat(s):
    return re.sub(r"\s+", " ", s).strip()


def diagnose(run, summary):
    """the readable message: class, expected program, translated program"""
    txt = ("From Coq Require Import List String.\nImport ListNotations.\n"
           "Require Import TL.Model.Core TL.Model.RoutineAst TLRun.GenRoutineProgs.\n"
           "Eval vm_compute in disagreements_dir DU translated.\n"
           "Eval vm_compute in disagreements_dir DM translated.\n")
    out = run.coq_eval("diagnose_routast.v", txt)
    if out is None or len(out) != 2:
        run.oblige("routast:programs translated from the source are the expected programs", False,
                   "diagnosis did not compile: " + "; ".join(run.notes[-1:])[:300])
        return False
    msgs = []
    for side, o in zip(("unmarshals", "marshals"), out):
        o = _flat(o)
        if o in ("[]", "nil"):
            continue
        # [(name, expected, Some translated | None); ...]
        for m in re.finditer(r'\("(\w+)"(?:%string)?,\s*(.*?),\s*(Some \((.*?)\)|Some (\w+)|None)\)(?=;|\s*\]$)', o):
            name, exp = m.group(1), m.group(2)
            got = m.group(4) or m.group(5) or "NOTHING (refused by the translator)"
            msgs.append(f"{name}: expected [{exp}] translated [{got}]")
        if not msgs:
            msgs.append(f"{side}: {o[:400]}")
    run.oblige("routast:programs translated from the source are the expected programs "
               "(class by class, RoutineAst.expected)", not msgs, " || ".join(msgs)[:1500])
    return not msgs


def obligations(run: lib.Run, props: bool = True, leaves: bool = True) -> bool:
    leaves_ok = leaf_obligations(run, props=props) if leaves else True
    text, problems, summary = translate()
    run.oblige("routast:translate composite routine classes (ast of unmarshals/routines.py and marshals/routines.py -> "
               "routine programs; __init__ and __call__ of every class inside the fragment, live classes are the "
               "parsed ones, no unknown routine class)", not problems, " || ".join(problems[:5]))
    run.extra_cov["routine_programs"] = summary
    ok = run.compile_dyn("GenRoutineProgs.v", text=text)
    if ok:
        diagnose(run, summary)
        for name, thms in X_FILES:
            ok = run.compile_dyn(name, src=os.path.join(lib.DYN, "RoutineAst", name), theorems=thms, timeout=300) and ok
    else:
        for _, thms in X_FILES:
            for t in thms:
                run.oblige(f"theorem:{t}", False, "generated programs do not compile")
    if props:
        for rel, thms in PROPS:
            run.check_props(rel, thms)
    run.assumptions += [
        "routine-program tie: harness/routasttie.py (ast -> prog, fail closed) is trusted to read the __init__/__call__ "
        "bodies of the ten composite routine classes as programs of Model/RoutineAst.v; the combinators' meaning "
        "(RoutineAst.interp: generators consumed by their constructor, first raise wins) is hand-written and shares "
        "load / itervalues / iteritems / first_ok / dict_of / dedupe / fill_fields with Model/Core.v",
        "routine-program tie: Core's steps for sets and mappings hash each element as it is produced, as the code does "
        "(unguarded RA_unm_iterable / RA_unm_mapping / RA_mar_mapping); the earlier convert-then-hash formulation is "
        "Model/CoreLate.v (RA_*_late_outside, Props/CoreHash.v: exact region of difference)",
    ]
    return ok and not problems and leaves_ok


if __name__ == "__main__":
    import json
    os.chdir(lib.VERIF)
    if "--print" in sys.argv:
        text, problems, summary = translate()
        print(text)
        for p in problems:
            print("PROBLEM:", p)
        sys.exit(1 if problems else 0)
    run = lib.Run("RoutineAst", "quick", 0)
    run.prepare()
    run.lint()
    if run.base_make(COQ_TARGETS):
        obligations(run)
    bad = [o for o in run.obligations if not o["ok"]]
    print(json.dumps({"obligations": len(run.obligations), "failed": [(o["name"], o["detail"]) for o in bad],
                      "programs": run.extra_cov.get("routine_programs"),
                      "leaf_classes": {k: sorted(v) for k, v in (run.extra_cov.get("routine_leaf_programs") or {}).items()},
                      "seconds": round(__import__("time").time() - run.t0, 1)},
                     indent=1))
    sys.exit(1 if bad else 0)
